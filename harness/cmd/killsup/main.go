// Command killsup is the ptrace supervisor of C03 (DESIGN App. M): it runs a command, counts the file-system-mutating
// system calls of the whole traced process tree (all threads, all children; one global counter at syscall-entry
// stops) whose target lies below -root, and kills every tracee with SIGKILL immediately BEFORE the N-th such call
// (the call itself is cancelled). N = 0 only counts.
//
//	killsup -n N -root DIR [-marks FILE] [-log FILE] -- cmd args...
//
// -log: one line per counted call "<idx> <name> <relpath> [<relpath2>]", suffixed " !<errno>" when the call failed
// (a failed call changed nothing: the runner need not kill before it); writes to the -marks file are logged as
// "# <text>" and never counted. Last stdout line: {"count":..,"killed":..,"exit":..}.
package main

import (
	"bufio"
	"bytes"
	"encoding/json"
	"flag"
	"fmt"
	"os"
	"os/exec"
	"path/filepath"
	"runtime"
	"strings"
	"syscall"
	"unsafe"
)

const (
	aFD   = iota // arg0 is the fd written to
	aFD2         // arg2 is the destination fd (copy_file_range, splice)
	aP0          // arg0 is a path
	aP1          // arg1 is a path (dirfd in arg0)
	aREN         // rename(old, new)
	aRENAT       // renameat(dfd, old, dfd, new)
	aOPEN        // open(path, flags)
	aOPENAT      // openat(dfd, path, flags)
	aCREAT
)

type sc struct {
	name string
	kind int
}

// x86_64 system call numbers
var watch = map[uint64]sc{
	1: {"write", aFD}, 18: {"pwrite64", aFD}, 20: {"writev", aFD}, 296: {"pwritev", aFD}, 328: {"pwritev2", aFD},
	40: {"sendfile", aFD}, 275: {"splice", aFD2}, 326: {"copy_file_range", aFD2},
	74: {"fsync", aFD}, 75: {"fdatasync", aFD}, 77: {"ftruncate", aFD}, 285: {"fallocate", aFD}, 76: {"truncate", aP0},
	82: {"rename", aREN}, 264: {"renameat", aRENAT}, 316: {"renameat2", aRENAT},
	87: {"unlink", aP0}, 263: {"unlinkat", aP1}, 84: {"rmdir", aP0},
	83: {"mkdir", aP0}, 258: {"mkdirat", aP1},
	280: {"utimensat", aP1}, 90: {"chmod", aP0}, 91: {"fchmod", aFD}, 268: {"fchmodat", aP1},
	92: {"chown", aP0}, 93: {"fchown", aFD}, 94: {"lchown", aP0}, 260: {"fchownat", aP1},
	2: {"open", aOPEN}, 257: {"openat", aOPENAT}, 85: {"creat", aCREAT},
}

const (
	oCREAT = 0x40
	oTRUNC = 0x200
	atFDCWD = -100
)

func peekString(pid int, addr uint64) string {
	if addr == 0 {
		return ""
	}
	var out []byte
	buf := make([]byte, 64)
	for len(out) < 4096 {
		n, err := syscall.PtracePeekData(pid, uintptr(addr)+uintptr(len(out)), buf)
		if err != nil || n == 0 {
			// retry word-wise (page boundary)
			w := make([]byte, 8)
			n, err = syscall.PtracePeekData(pid, uintptr(addr)+uintptr(len(out)), w)
			if err != nil || n == 0 {
				break
			}
			buf2 := w[:n]
			if i := bytes.IndexByte(buf2, 0); i >= 0 {
				return string(append(out, buf2[:i]...))
			}
			out = append(out, buf2...)
			continue
		}
		if i := bytes.IndexByte(buf[:n], 0); i >= 0 {
			return string(append(out, buf[:i]...))
		}
		out = append(out, buf[:n]...)
	}
	return string(out)
}

func fdPath(pid int, fd int64) string {
	p, err := os.Readlink(fmt.Sprintf("/proc/%d/fd/%d", pid, fd))
	if err != nil {
		return ""
	}
	return strings.TrimSuffix(p, " (deleted)")
}

func absPath(pid int, dfd int64, p string) string {
	if p == "" {
		if int32(dfd) != atFDCWD {
			return fdPath(pid, dfd)
		}
		return ""
	}
	if strings.HasPrefix(p, "/") {
		return filepath.Clean(p)
	}
	var base string
	if int32(dfd) == atFDCWD {
		base, _ = os.Readlink(fmt.Sprintf("/proc/%d/cwd", pid))
	} else {
		base = fdPath(pid, dfd)
	}
	return filepath.Join(base, p)
}

// ---- seccomp: only the watched system calls stop the tracee (PTRACE_EVENT_SECCOMP); everything else runs at full speed.

type sockFilter struct {
	code   uint16
	jt, jf uint8
	k      uint32
}
type sockFprog struct {
	n      uint16
	_      [6]byte
	filter *sockFilter
}

func installFilter() error {
	var nrs []uint32
	for nr := range watch {
		nrs = append(nrs, uint32(nr))
	}
	n := len(nrs)
	prog := []sockFilter{
		{0x20, 0, 0, 4},                      // ld [arch]
		{0x15, 0, uint8(n + 1), 0xC000003E},  // jeq x86_64 else allow
		{0x20, 0, 0, 0},                      // ld [nr]
	}
	for i, nr := range nrs {
		prog = append(prog, sockFilter{0x15, uint8(n - i), 0, nr}) // jeq nr -> trace
	}
	prog = append(prog, sockFilter{0x06, 0, 0, 0x7fff0000}) // allow
	prog = append(prog, sockFilter{0x06, 0, 0, 0x7ff00000}) // trace
	fp := sockFprog{n: uint16(len(prog)), filter: &prog[0]}
	syscall.RawSyscall6(syscall.SYS_PRCTL, 38 /*PR_SET_NO_NEW_PRIVS*/, 1, 0, 0, 0, 0)
	if _, _, e := syscall.RawSyscall(317 /*seccomp*/, 1 /*SET_MODE_FILTER*/, 1 /*TSYNC*/, uintptr(unsafe.Pointer(&fp))); e != 0 {
		return e
	}
	return nil
}

func trampoline(args []string) {
	runtime.LockOSThread()
	path, err := exec.LookPath(args[0])
	if err == nil {
		err = installFilter()
	}
	if err == nil {
		err = syscall.Exec(path, args, os.Environ())
	}
	fmt.Fprintln(os.Stderr, "killsup trampoline:", err)
	os.Exit(126)
}

func main() {
	if len(os.Args) > 2 && os.Args[1] == "-trampoline" {
		trampoline(os.Args[2:])
	}
	runtime.LockOSThread()
	n := flag.Int("n", 0, "kill before the n-th counted call (0 = count only)")
	root := flag.String("root", "", "count only calls whose target lies below this directory")
	marks := flag.String("marks", "", "file whose writes are logged as marks")
	logPath := flag.String("log", "", "sequence log")
	useSeccomp := flag.Bool("seccomp", true, "stop only at watched calls (seccomp RET_TRACE) instead of at every system call")
	flag.Parse()
	args := flag.Args()
	if len(args) == 0 || *root == "" {
		fmt.Fprintln(os.Stderr, "usage: killsup -n N -root DIR [-marks F] [-log F] -- cmd args...")
		os.Exit(2)
	}
	rootDir := filepath.Clean(*root)
	rel := func(p string) (string, bool) {
		if p == rootDir {
			return ".", true
		}
		if strings.HasPrefix(p, rootDir+"/") {
			return p[len(rootDir)+1:], true
		}
		return "", false
	}
	var lines []string
	cmd := exec.Command(args[0], args[1:]...)
	if *useSeccomp {
		self, _ := os.Executable()
		cmd = exec.Command(self, append([]string{"-trampoline"}, args...)...)
	}
	cmd.Stdout, cmd.Stderr = os.Stderr, os.Stderr
	cmd.SysProcAttr = &syscall.SysProcAttr{Ptrace: true}
	if err := cmd.Start(); err != nil {
		fmt.Fprintln(os.Stderr, "killsup:", err)
		os.Exit(2)
	}
	rootPid := cmd.Process.Pid
	var ws syscall.WaitStatus
	syscall.Wait4(rootPid, &ws, 0, nil) // initial stop at exec
	resume := func(pid, sig int) {
		if *useSeccomp {
			syscall.PtraceCont(pid, sig)
		} else {
			syscall.PtraceSyscall(pid, sig)
		}
	}
	opts := 0x80 /*TRACESECCOMP*/ | syscall.PTRACE_O_TRACECLONE | syscall.PTRACE_O_TRACEFORK | syscall.PTRACE_O_TRACEVFORK | syscall.PTRACE_O_TRACESYSGOOD | 0x100000 /*EXITKILL*/
	if err := syscall.PtraceSetOptions(rootPid, opts); err != nil {
		fmt.Fprintln(os.Stderr, "killsup: setoptions:", err)
		os.Exit(2)
	}
	resume(rootPid, 0)
	count := 0
	killed := false
	exitCode := -1
	live := map[int]bool{rootPid: true}
	pendingLine := map[int]int{} // tid -> index into lines of the call it is executing
	wantExit := map[int]bool{}   // seccomp mode: tid resumed with PTRACE_SYSCALL to observe the call's result
	const enosys = ^uint64(38) + 1
	for len(live) > 0 {
		pid, err := syscall.Wait4(-1, &ws, syscall.WALL, nil)
		if err != nil {
			break
		}
		if ws.Exited() || ws.Signaled() {
			delete(live, pid)
			if pid == rootPid {
				if ws.Exited() {
					exitCode = ws.ExitStatus()
				} else {
					exitCode = 128 + int(ws.Signal())
				}
			}
			continue
		}
		live[pid] = true
		sig := 0
		if ws.Stopped() {
			switch {
			case ws.StopSignal() == syscall.SIGTRAP|0x80 || (ws.StopSignal() == syscall.SIGTRAP && ws.TrapCause() == 7): // syscall stop / seccomp stop
				isSeccomp := ws.StopSignal() == syscall.SIGTRAP
				var regs syscall.PtraceRegs
				if killed || syscall.PtraceGetRegs(pid, &regs) != nil {
					break
				}
				if !isSeccomp && (regs.Rax != enosys || (*useSeccomp && wantExit[pid])) { // exit stop
					delete(wantExit, pid)
					if k, ok := pendingLine[pid]; ok {
						delete(pendingLine, pid)
						if r := int64(regs.Rax); r < 0 && r > -4096 {
							lines[k] += fmt.Sprintf(" !%d", -r)
						}
					}
					break
				}
				s, ok := watch[regs.Orig_rax]
				if !ok {
					break
				}
				a := [4]int64{int64(regs.Rdi), int64(regs.Rsi), int64(regs.Rdx), int64(regs.R10)}
				var p1, p2 string
				switch s.kind {
				case aFD:
					p1 = fdPath(pid, a[0])
				case aFD2:
					p1 = fdPath(pid, a[2])
				case aP0:
					p1 = absPath(pid, atFDCWD, peekString(pid, uint64(a[0])))
				case aP1:
					p1 = absPath(pid, a[0], peekString(pid, uint64(a[1])))
				case aREN:
					p1 = absPath(pid, atFDCWD, peekString(pid, uint64(a[0])))
					p2 = absPath(pid, atFDCWD, peekString(pid, uint64(a[1])))
				case aRENAT:
					p1 = absPath(pid, a[0], peekString(pid, uint64(a[1])))
					p2 = absPath(pid, a[2], peekString(pid, uint64(a[3])))
				case aOPEN, aOPENAT, aCREAT:
					var flags int64
					switch s.kind {
					case aOPEN:
						p1, flags = absPath(pid, atFDCWD, peekString(pid, uint64(a[0]))), a[1]
					case aOPENAT:
						p1, flags = absPath(pid, a[0], peekString(pid, uint64(a[1]))), a[2]
					default:
						p1, flags = absPath(pid, atFDCWD, peekString(pid, uint64(a[0]))), oCREAT|oTRUNC
					}
					if flags&(oCREAT|oTRUNC) == 0 {
						p1 = ""
					} else if flags&oTRUNC == 0 {
						if _, e := os.Lstat(p1); e == nil {
							p1 = "" // O_CREAT on an existing file: no mutation
						}
					}
				}
				if p1 == "" {
					break
				}
				if *marks != "" && p1 == *marks && s.name == "write" {
					ln := a[2]
					if ln > 200 {
						ln = 200
					}
					b := make([]byte, ln)
					if nn, e := syscall.PtracePeekData(pid, uintptr(a[1]), b); e == nil {
						lines = append(lines, "# "+strings.TrimSpace(string(b[:nn])))
					}
					break
				}
				r1, in1 := rel(p1)
				r2, in2 := rel(p2)
				if !in1 && !(p2 != "" && in2) {
					break
				}
				count++
				if count == *n {
					killed = true
					regs.Orig_rax = ^uint64(0) // cancel the call, then kill every tracee
					syscall.PtraceSetRegs(pid, &regs)
					for p := range live {
						syscall.Kill(p, syscall.SIGKILL)
					}
					lines = append(lines, fmt.Sprintf("# KILLED before %d %s %s %s", count, s.name, r1, r2))
					break
				}
				l := fmt.Sprintf("%d %s %s", count, s.name, r1)
				if p2 != "" {
					l += " " + r2
				}
				pendingLine[pid] = len(lines)
				lines = append(lines, l)
				if *useSeccomp { // one PTRACE_SYSCALL to see the result of this call
					wantExit[pid] = true
					syscall.PtraceSyscall(pid, 0)
					continue
				}
			case ws.StopSignal() == syscall.SIGTRAP: // ptrace event (clone/fork/exec)
			case ws.StopSignal() == syscall.SIGSTOP: // new tracee initial stop
			default:
				sig = int(ws.StopSignal())
			}
		}
		resume(pid, sig)
	}
	if *logPath != "" {
		f, err := os.Create(*logPath)
		if err == nil {
			w := bufio.NewWriter(f)
			for _, l := range lines {
				fmt.Fprintln(w, l)
			}
			w.Flush()
			f.Close()
		}
	}
	json.NewEncoder(os.Stdout).Encode(map[string]any{"count": count, "killed": killed, "exit": exitCode})
}
